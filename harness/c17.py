"""C17 — parameter initialisation follows the symbolic initialiser regardless of folding."""
from __future__ import annotations

import random

import numpy as np
import torch

from framework import Run
import cirkit.backend.torch.compiler as CC
import cirkit.symbolic.parameters as P
from cirkit.backend.torch.compiler import TorchCompiler
from cirkit.symbolic.circuit import Circuit
from cirkit.symbolic.dtypes import DataType
from cirkit.symbolic.initializers import (ConstantTensorInitializer, DirichletInitializer, NormalInitializer,
                                          UniformInitializer)
from cirkit.symbolic.layers import EmbeddingLayer, HadamardLayer, SumLayer
from cirkit.utils.scope import Scope

RULE = ("every symbolic initialiser (constant scalar / constant array incl. broadcast shapes and complex values, "
        "Dirichlet with scalar or per-category concentration on every admissible axis given positive or negative, "
        "uniform, normal) x tensor shapes of rank 1-4 x learnable / non-learnable x fold groupings (alone, folded with "
        "1-3 identically shaped siblings using the same or other initialisers, unfolded) x repeated reset_parameters(), the values being overwritten with a sentinel before each reset; "
        "slices read through the compiler registry: constants equal exactly, Dirichlet slices sum to one along the "
        "declared axis and are non-negative, uniform within bounds, dtype and requires_grad as declared; also at "
        "circuit level (sum-layer weights folded by the compiler); non-trivial = distinct (initialisers, shape, grouping)")


def rand_init(rng, shape):
    kind = rng.choice(["const_scalar", "const_array", "const_bcast", "dirichlet", "dirichlet_list", "uniform", "normal"])
    rank = len(shape)
    if kind == "const_scalar":
        v = rng.choice([0.5, -1.25, 3, 2.0])
        return {"kind": kind, "value": v}
    if kind == "const_array":
        arr = (np.arange(int(np.prod(shape)), dtype=np.float64).reshape(shape) + rng.randrange(5)) / 8
        return {"kind": kind, "value": arr.tolist()}
    if kind == "const_bcast":
        sub = list(shape[rng.randrange(rank):]) if rank > 1 else list(shape)
        arr = (np.arange(int(np.prod(sub)), dtype=np.float64).reshape(sub) + 1) / 4
        return {"kind": kind, "value": arr.tolist()}
    if kind in ("dirichlet", "dirichlet_list"):
        ax = rng.randrange(rank)
        axis = ax if rng.random() < 0.5 else ax - rank
        alpha = 1.0 if kind == "dirichlet" else [rng.choice([0.5, 1.0, 2.0]) for _ in range(shape[ax])]
        return {"kind": "dirichlet", "alpha": alpha, "axis": axis, "norm_axis": ax}
    if kind == "uniform":
        a = rng.choice([-1.0, 0.0, 0.25]); return {"kind": kind, "a": a, "b": a + rng.choice([0.5, 2.0])}
    return {"kind": "normal", "mean": rng.choice([0.0, 1.5]), "stddev": rng.choice([0.5, 1.0])}


def build_init(d):
    k = d["kind"]
    if k == "const_scalar":
        return ConstantTensorInitializer(d["value"])
    if k in ("const_array", "const_bcast"):
        return ConstantTensorInitializer(np.array(d["value"], dtype=np.float64))
    if k == "dirichlet":
        return DirichletInitializer(d["alpha"], axis=d["axis"])
    if k == "uniform":
        return UniformInitializer(d["a"], d["b"])
    return NormalInitializer(d["mean"], d["stddev"])


SENTINEL = -123.0


def verify_slice(t: torch.Tensor, d: dict, shape, learnable: bool):
    """Returns None if the slice conforms to the initialiser, else a description."""
    if tuple(t.shape) != tuple(shape):
        return f"slice shape {tuple(t.shape)} != {tuple(shape)}"
    k = d["kind"]
    x = t.detach().numpy()
    if np.any(x == SENTINEL):
        return "reset_parameters() left the values written before the reset in place"
    if not np.all(np.isfinite(x)):
        return "non-finite values"
    if k == "const_scalar":
        if not np.all(x == d["value"]):
            return f"constant {d['value']} not copied exactly: {x.reshape(-1)[:4]}"
    elif k in ("const_array", "const_bcast"):
        exp = np.broadcast_to(np.array(d["value"], dtype=np.float64), shape)
        if not np.array_equal(x, exp):
            return f"constant array not copied exactly (first entries {x.reshape(-1)[:4]} vs {exp.reshape(-1)[:4]})"
    elif k == "dirichlet":
        s = x.sum(axis=d["norm_axis"])
        if not np.allclose(s, 1.0, atol=1e-12) or (x < 0).any():
            return f"Dirichlet samples do not sum to one along the declared axis {d['axis']} (sums {s.reshape(-1)[:4]})"
    elif k == "uniform":
        if (x < d["a"]).any() or (x > d["b"]).any():
            return f"uniform samples outside [{d['a']}, {d['b']}]"
    return None


def run_scenario(run: Run, scen: dict, rng: random.Random):
    shape, inits, fold, learnable = tuple(scen["shape"]), scen["inits"], scen["fold"], scen["learnable"]
    if scen["level"] == "parameter":
        syms = []
        try:
            for d in inits:
                syms.append(P.TensorParameter(*shape, initializer=build_init(d), learnable=d.get("learnable", learnable)))
        except ValueError:
            run.feature("shape_rejected", True)
            return
        comp = TorchCompiler(fold=fold)
        try:
            tps = [comp.compile_parameter(P.Parameter.from_input(s)) for s in syms]
            if fold and len(tps) > 1:
                tp = CC._fold_parameters(comp, tps)
                holders = [tp]
            else:
                holders = tps
            for rep in range(3):
                if rep:
                    # values have changed since the last reset (training, loading): a reset must draw them anew
                    with torch.no_grad():
                        for s_ in syms:
                            pt_, _ = comp.state.retrieve_compiled_parameter(s_)
                            pt_._ptensor.fill_(SENTINEL)
                for h in holders:
                    h.reset_parameters()
                for s, d in zip(syms, inits):
                    pt, idx = comp.state.retrieve_compiled_parameter(s)
                    run.evaluations += 1
                    lrn = d.get("learnable", learnable)
                    mates = sum(1 for x in inits if x.get("learnable", learnable) == lrn)  # learnable and frozen tensors are folded apart
                    if fold and len(tps) > 1 and pt.num_folds != mates:
                        run.violation("not-folded", scen, f"expected one folded tensor with {mates} slices, found {pt.num_folds}", no_failing_input=True, broken="harness assumption on _fold_parameters")
                        return
                    why = verify_slice(pt._ptensor[idx], d, shape, learnable)
                    if why:
                        run.violation("init-wrong", dict(scen, reset=rep, param=inits.index(d)), f"{why} (fold={fold}, group of {len(inits)}, after {rep} resets)")
                        return
                    if pt._ptensor.requires_grad != d.get("learnable", learnable):
                        run.violation("requires-grad", scen, f"requires_grad={pt._ptensor.requires_grad} for a parameter declared learnable={d.get('learnable', learnable)} (fold={fold}, group of {len(inits)} with flags {[x.get('learnable', learnable) for x in inits]})")
                        return
                    run.exact += 1
        except Exception as e:  # noqa: BLE001
            run.violation("init-crash", scen, f"{type(e).__name__}: {e} (fold={fold}, inits {[d['kind'] for d in inits]}, shape {shape})")
            return
    else:
        # circuit level: several sum layers with identical structure are folded by the compiler
        K, Kin = shape
        embs = [EmbeddingLayer(Scope([i]), Kin, num_states=2) for i in range(len(inits))]
        syms, sums = [], []
        try:
            for d in inits:
                tpar = P.TensorParameter(K, Kin, initializer=build_init(d), learnable=d.get("learnable", learnable))
                syms.append(tpar)
                sums.append(SumLayer(Kin, K, weight=P.Parameter.from_input(tpar)))
        except ValueError:
            run.feature("shape_rejected", True)
            return
        layers = embs + sums
        inl = {s: [e] for s, e in zip(sums, embs)}
        outs = sums
        if len(sums) > 1:
            h = HadamardLayer(K, arity=len(sums)); layers.append(h); inl[h] = sums; outs = [h]
        sc = Circuit(layers, inl, outs)
        try:
            comp = TorchCompiler(fold=fold, optimize=scen.get("optimize", False))
            tc = comp.compile(sc)
            for rep in range(3):
                if rep:
                    with torch.no_grad():
                        for s_ in syms:
                            pt_, _ = comp.state.retrieve_compiled_parameter(s_)
                            pt_._ptensor.fill_(SENTINEL)
                    tc.reset_parameters()
                for s, d in zip(syms, inits):
                    pt, idx = comp.state.retrieve_compiled_parameter(s)
                    run.evaluations += 1
                    why = verify_slice(pt._ptensor[idx], d, (K, Kin), learnable)
                    if why:
                        run.violation("init-wrong", dict(scen, reset=rep), f"{why} (circuit level, fold={fold}, {len(inits)} sum layers, after {rep} resets)")
                        return
                    if pt._ptensor.requires_grad != d.get("learnable", learnable):
                        run.violation("requires-grad", scen, f"requires_grad={pt._ptensor.requires_grad} for a parameter declared learnable={d.get('learnable', learnable)} (circuit level, fold={fold})")
                        return
                    run.exact += 1
        except Exception as e:  # noqa: BLE001
            run.violation("init-crash", scen, f"{type(e).__name__}: {e} (circuit level, fold={fold}, inits {[d['kind'] for d in inits]})")
            return


def check(run: Run, tier: str, seed: int):
    n = 600 if tier == "quick" else 4000
    for i in range(n):
        srng = random.Random(f"C17-{seed}-{i}")
        level = "circuit" if i % 4 == 3 else "parameter"
        rank = 2 if level == "circuit" else srng.choice([1, 2, 2, 3, 3, 4])
        shape = [srng.choice([1, 2, 3, 4]) for _ in range(rank)]
        group = srng.choice([1, 2, 3, 4])
        same = srng.random() < 0.4
        first = rand_init(srng, shape)
        inits = [dict(first) if same else rand_init(srng, shape) for _ in range(group)]
        if srng.random() < 0.4:
            for d in inits:  # learnable and frozen parameters of one shape side by side
                d["learnable"] = srng.random() < 0.5
        scen = {"level": level, "shape": shape, "inits": inits, "fold": srng.random() < 0.7,
                "learnable": srng.random() < 0.7, "optimize": srng.random() < 0.3}
        run.case(scen, nontrivial=True, sample=scen if i < 2 else None,
                 features={"level": level, "rank": rank, "group": group, "fold": scen["fold"]})
        for d in inits:
            run.feature("init", d["kind"])
        run_scenario(run, scen, srng)


def replay(run: Run, body: dict):
    run_scenario(run, body["scenario"], random.Random(0))
