"""C06 — evidence and concatenate implement conditioning and output stacking."""
from __future__ import annotations

import random

import numpy as np

import common
import gen
import pipelines
import real
import ser
from c03 import same_nested
from framework import Run
import cirkit.symbolic.functional as SF

RULE = ("generated circuits (embedding / polynomial / categorical / binomial / Gaussian inputs, heterogeneous "
        "category counts, arbitrary variable ids) x random partial and complete observations x remaining-variable "
        "rows; Lean eval of the real evidence() result vs Lean eval of the operand at the overwritten row, Lean model "
        "operator vs real operator, compiled evidence() vs compiled operand on overwritten inputs under a flag/semiring "
        "combination; evidence followed by integrate; concatenate of 2-3 operands: outputs in operand order, each "
        "equal to the operand evaluated alone; non-trivial = distinct (spec, obs) with a sum and a product layer")

CLASSES = [
    ("emb_poly", dict(leaf_kinds=["emb", "poly"], weight_pz=["id"], signed=True), ["sum-product", "complex-lse-sum"]),
    ("emb", dict(leaf_kinds=["emb"], weight_pz=["id"]), ["sum-product", "lse-sum"]),
    ("expfam", dict(leaf_kinds=["cat_probs", "cat_softmax", "cat_logits", "bin_probs", "bin_logits", "gauss",
                                "gauss_lp", "emb"], units=[1, 2], weight_pz=["id", "softmax", "exp"]),
     ["sum-product", "lse-sum"]),
]


def overwrite(rows, obs):
    out = []
    for r in rows:
        r = list(r)
        for v, a in obs.items():
            r[int(v)] = a
        out.append(r)
    return out


def random_obs(rng, spec):
    vs = spec["vars"]
    zs = rng.sample(vs, rng.randint(1, len(vs)))
    obs = {}
    cont = set(spec.get("continuous", []))
    for v in zs:
        if v in cont:
            # Python ints and non-integer floats mixed (observations of one evidence are stacked when folded)
            obs[str(v)] = rng.choice(range(-2, 3)) if rng.random() < 0.4 else rng.choice([-7, -5, -3, -1, 1, 3, 5, 7]) / 4
        else:
            obs[str(v)] = rng.randrange(spec["states"][str(v)])
    return obs


def run_evidence(run: Run, scen: dict, rng: random.Random):
    spec, obs, semiring, fold, optimize = scen["spec"], scen["obs"], scen["semiring"], scen["fold"], scen["optimize"]
    sc = gen.build_circuit(spec)
    try:
        esc = SF.evidence(sc, {int(k): v for k, v in obs.items()})
    except Exception as e:  # noqa: BLE001
        run.violation("evidence-raised", scen, f"evidence raised {type(e).__name__}: {e} on a valid observation")
        return
    rest = sorted(v for v in spec["vars"] if str(v) not in obs)
    if sorted(esc.scope) != rest:
        run.violation("scope", scen, f"scope of the result {sorted(esc.scope)} != scope minus observed {rest}")
        return
    if len(esc.outputs) != len(sc.outputs):
        run.violation("num-outputs", scen, f"{len(esc.outputs)} outputs, expected {len(sc.outputs)}")
        return
    rows = gen.gen_inputs(rng, spec, 3)
    orows = overwrite(rows, obs)
    scen_x = dict(scen, rows=rows)
    mc = common.ModelCircuit(sc)
    me = common.ModelCircuit(esc, mode=mc.mode)
    try:
        try:
            comp, tc = real.compile_circuit(sc, fold=fold, optimize=optimize, semiring=semiring)
            etc = comp.compile(esc)
        except Exception as e:  # noqa: BLE001
            run.violation("compile-crash", scen, f"compilation raised {type(e).__name__}: {e} (fold={fold}, optimize={optimize})")
            return
        theta = real.read_theta(comp, ser.tensor_params(sc))
        a = me.eval(theta, rows)
        b = mc.eval(theta, orows)
        run.evaluations += 1
        ok, why = same_nested(a, b, mc.mode)
        if not ok:
            run.violation("evidence-wrong", scen_x, f"Lean evaluation of the circuit returned by evidence() differs from the operand at the observed values: {why}")
            return
        vs = [int(k) for k in obs]
        c = mc.d.op_eval(mc.cid, theta, rows, "evidence", vars=vs, vals=[obs[str(v)] for v in vs])
        run.disagreements_checked += 1
        ok, why = same_nested(a, c, mc.mode)
        if not ok:
            run.violation("model-operator", scen_x, f"model evidence vs real evidence: {why}", no_failing_input=True,
                          broken="correspondence Node.evid vs functional.evidence")
            return
        if mc.mode in ("rat", "gauss"):
            run.exact += 1
        else:
            run.tolerance += 1
        try:
            ye = real.evaluate(etc, common.input_array(rows, spec) if esc.scope else None, semiring=semiring)
            if not esc.scope:
                ye = np.broadcast_to(ye, (len(rows), *ye.shape[1:]))
            yo = real.evaluate(tc, common.input_array(orows, spec), semiring=semiring)
        except Exception as e:  # noqa: BLE001
            run.violation("eval-crash", scen_x, f"{type(e).__name__}: {e}")
            return
        try:
            m = me.eval(theta, rows); mag = me.magnitude(theta, rows)
            common.compare(ye, m, mag, me.mode)
            if not scen["class"].startswith("emb_poly"):
                common.compare_arrays(ye, yo, tol=1e-9, what="compiled evidence vs compiled operand on overwritten input")
        except common.Mismatch as mm:
            run.violation("compiled-evidence-wrong", scen_x, f"{mm} {mm.detail} (fold={fold}, optimize={optimize}, {semiring})")
            return
    finally:
        mc.drop(); me.drop()


def run_concat(run: Run, scen: dict, rng: random.Random):
    specs, semiring, fold, optimize = scen["specs"], scen["semiring"], scen["fold"], scen["optimize"]
    scs = [gen.build_circuit(s) for s in specs]
    try:
        cc = SF.concatenate(scs)
    except Exception as e:  # noqa: BLE001
        run.violation("concatenate-raised", scen, f"{type(e).__name__}: {e}")
        return
    nouts = [len(s.outputs) for s in scs]
    if len(cc.outputs) != sum(nouts):
        run.violation("num-outputs", scen, f"{len(cc.outputs)} outputs, expected {sum(nouts)}")
        return
    allvars = sorted(set(v for s in specs for v in s["vars"]))
    merged = {"vars": allvars, "states": {}, "continuous": sorted(set(v for s in specs for v in s.get("continuous", []))),
              "layers": [d for s in specs for d in s["layers"]]}
    for s in specs:
        merged["states"].update(s["states"])
    rows = gen.gen_inputs(rng, merged, 3)
    scen_x = dict(scen, rows=rows)
    try:
        comp = real.TorchCompiler(semiring=semiring, fold=fold, optimize=optimize)
        tcs = [comp.compile(s) for s in scs]
        tcc = comp.compile(cc)
        X = common.input_array(rows, merged)
        y = real.evaluate(tcc, X, semiring=semiring)
        parts = [real.evaluate(t, X[:, : max(s["vars"]) + 1] if False else X, semiring=semiring) for t, s in zip(tcs, specs)]
    except Exception as e:  # noqa: BLE001
        run.violation("eval-crash", scen_x, f"{type(e).__name__}: {e}")
        return
    run.evaluations += 1
    try:
        common.compare_arrays(y, np.concatenate(parts, axis=1), tol=1e-12, what="concatenate vs operands alone")
    except common.Mismatch as mm:
        run.violation("concatenate-wrong", scen_x, f"{mm} {mm.detail}")
        return
    # Lean semantics of the result
    mcc = common.ModelCircuit(cc)
    try:
        theta = {}
        for s in scs:
            theta.update(real.read_theta(comp, ser.tensor_params(s)))
        m = mcc.eval(theta, rows); mag = mcc.magnitude(theta, rows)
        common.compare(y, m, mag, mcc.mode)
        ms = []
        for s in scs:
            mo = common.ModelCircuit(s, mode=mcc.mode)
            ms.append(mo.eval(theta, rows)); mo.drop()
        exp = [sum((mi[b] for mi in ms), []) for b in range(len(rows))]
        ok, why = same_nested(m, exp, mcc.mode)
        if not ok:
            run.violation("concatenate-wrong", scen_x, f"Lean eval of concatenate() result differs from the operands' outputs in order: {why}")
    except common.Mismatch as mm:
        run.violation("concatenate-wrong", scen_x, f"{mm} {mm.detail}")
    finally:
        mcc.drop()


def check(run: Run, tier: str, seed: int):
    n = 180 if tier == "quick" else 1200
    for i in range(n):
        cls, opts, semirings = CLASSES[i % len(CLASSES)]
        srng = random.Random(f"C06-{seed}-{i}")
        spec = gen.gen_spec(srng, **opts)
        if len(spec["layers"]) > (36 if tier == "quick" else 60):
            spec = gen.gen_spec(srng, nv=2, **opts)
        feats = gen.spec_features(spec)
        nontrivial = feats["had"] + feats["kron"] > 0 and any(d["t"] == "sum" for d in spec["layers"])
        semiring = srng.choice(semirings)
        fold, optimize = srng.choice(real.FLAGS)
        if i % 4 == 3:
            kout = gen.build_circuit(spec).outputs[0].num_output_units
            others = []
            for _ in range(srng.choice([1, 2])):
                # operands agree on the domain and kind of the variables they share
                states = {}
                varkind = {}
                for sp in [spec] + others:
                    states.update({int(k): v for k, v in sp["states"].items()})
                    for v in sp["vars"]:
                        varkind[v] = "cont" if v in sp.get("continuous", []) else "disc"
                o2 = gen.gen_spec(srng, kout=kout, states=states, varkind=varkind, **opts)
                if len(o2["layers"]) > 36:
                    o2 = gen.gen_spec(srng, kout=kout, nv=2, states=states, varkind=varkind, **opts)
                others.append(o2)
            scen = {"kind": "concatenate", "specs": [spec] + others, "class": cls, "semiring": semiring,
                    "fold": fold, "optimize": optimize}
            run.case(scen["specs"], nontrivial=nontrivial, features={"kind": "concatenate", "class": cls,
                     "operands": len(scen["specs"]), "flags": f"{fold},{optimize}", "semiring": semiring})
            run_concat(run, scen, srng)
            continue
        if i % 6 == 1:
            # same-kind continuous inputs observed with a Python int and a non-integer float in one evidence,
            # folded: the observation tensors of one fold group are stacked
            spec = gen.gen_spec(srng, leaf_kinds=[srng.choice(["gauss", "poly"])], weight_pz=["id"], units=[srng.choice([1, 2])],
                                nv=srng.choice([2, 3]), signed=True)
            feats = gen.spec_features(spec)
            cls, semiring, fold = "continuous_pair", "sum-product", True
        for rep in range(2):
            obs = random_obs(srng, spec)
            if cls == "continuous_pair":
                vs_ = sorted(spec["vars"], reverse=bool(rep))
                obs = {str(v): (srng.choice([-2, -1, 1, 2]) if j == 0 else srng.choice([-7, -5, -3, -1, 1, 3, 5, 7]) / 4)
                       for j, v in enumerate(vs_)}
                if len(vs_) > 2 and srng.random() < 0.5:
                    obs.pop(str(vs_[-1]))
            scen = {"kind": "evidence", "spec": spec, "class": cls, "obs": obs, "semiring": semiring,
                    "fold": fold, "optimize": optimize}
            run.case({"spec": spec, "obs": obs}, nontrivial=nontrivial, sample=scen if i < 1 else None,
                     features={"kind": "evidence", "class": cls, "complete": len(obs) == len(spec["vars"]),
                               "flags": f"{fold},{optimize}", "semiring": semiring, "outputs": feats["outputs"]})
            run_evidence(run, scen, srng)


def replay(run: Run, body: dict):
    s = body["scenario"]
    if s.get("kind") == "concatenate":
        run_concat(run, s, random.Random(0))
    else:
        run_evidence(run, s, random.Random(0))
