"""Wrapper around the Lean model driver (line protocol, one process per number mode)."""
from __future__ import annotations

import json
import os
import struct
import select
import subprocess
from fractions import Fraction

VERIF = os.path.dirname(os.path.dirname(os.path.abspath(__file__)))
LEAN_DIR = os.path.join(VERIF, "lean")
DRIVER_EXE = os.path.join(LEAN_DIR, ".lake", "build", "bin", "driver")


class ModelError(Exception):
    pass


def float_bits(x: float) -> int:
    return struct.unpack("<Q", struct.pack("<d", float(x)))[0]


def bits_float(b: int) -> float:
    return struct.unpack("<d", struct.pack("<Q", int(b)))[0]


def enc_num(x, mode: str):
    """Encode a Python number for the given driver mode."""
    if mode == "float":
        return float_bits(float(x))
    if mode.startswith("jet"):
        if isinstance(x, (list, tuple)):
            return [enc_rat(c) for c in x]
        return enc_rat(x)
    if mode in ("gauss", "dual"):
        if isinstance(x, tuple):
            return [enc_rat(x[0]), enc_rat(x[1])]
        if isinstance(x, complex):
            return [enc_rat(x.real), enc_rat(x.imag)]
        return [enc_rat(x), "0"]
    return enc_rat(x)


def enc_rat(x) -> str:
    if isinstance(x, Fraction):
        f = x
    elif isinstance(x, int):
        f = Fraction(x)
    else:
        f = Fraction(float(x))  # exact value of the float
    return f"{f.numerator}/{f.denominator}" if f.denominator != 1 else str(f.numerator)


def dec_num(s: str, mode: str):
    if mode == "float":
        return bits_float(int(s))
    if mode.startswith("jet"):
        return [Fraction(c) for c in s.split(",")]
    if mode == "gauss":
        a, b = s.split(",")
        return (Fraction(a), Fraction(b))
    if mode == "dual":
        a, b = s.split(",")
        return (Fraction(a), Fraction(b))
    return Fraction(s)


def dec_nested(x, mode):
    if isinstance(x, list):
        return [dec_nested(y, mode) for y in x]
    return dec_num(x, mode)


MODEL_TIMEOUT = float(os.environ.get("VERIF_MODEL_TIMEOUT", "900"))


def _die_with_parent():
    # PR_SET_PDEATHSIG = 1: no orphan driver keeps a core busy when a check is killed
    try:
        import ctypes, signal
        ctypes.CDLL("libc.so.6").prctl(1, signal.SIGKILL)
    except Exception:  # noqa: BLE001
        pass


class Driver:
    """One Lean driver process in a fixed number mode."""

    def __init__(self, mode: str = "rat"):
        self.mode = mode
        if os.path.exists(DRIVER_EXE) and not os.environ.get("VERIF_DRIVER_INTERP"):
            cmd = [DRIVER_EXE, mode]
        else:
            cmd = ["lake", "env", "lean", "--run", "Driver/Main.lean", mode]
        self.proc = subprocess.Popen(
            cmd, cwd=LEAN_DIR, stdin=subprocess.PIPE, stdout=subprocess.PIPE, text=True, bufsize=1,
            preexec_fn=_die_with_parent,
        )
        self.calls = 0

    def call(self, obj: dict) -> dict:
        self.proc.stdin.write(json.dumps(obj) + "\n")
        self.proc.stdin.flush()
        # one response line per request; a model evaluation that does not come back is a machinery failure
        ready, _, _ = select.select([self.proc.stdout], [], [], MODEL_TIMEOUT)
        if not ready:
            self.proc.kill()
            raise ModelError(f"driver timed out after {MODEL_TIMEOUT}s on {obj.get('cmd')}")
        line = self.proc.stdout.readline()
        if not line:
            raise ModelError(f"driver died on {obj.get('cmd')}")
        self.calls += 1
        res = json.loads(line)
        if "error" in res:
            raise ModelError(res["error"])
        return res

    def close(self):
        try:
            self.proc.stdin.close()
            self.proc.wait(timeout=10)
        except Exception:
            self.proc.kill()

    # ---- convenience -------------------------------------------------------------------
    def put_circuit(self, cid: str, ser: dict) -> dict:
        return self.call({"cmd": "circuit", "id": cid, **ser})

    def props(self, cid: str, other: str | None = None) -> dict:
        q = {"cmd": "props", "id": cid}
        if other is not None:
            q["other"] = other
        return self.call(q)

    def _theta(self, theta: dict):
        return {str(u): [enc_num(v, self.mode) for v in vals] for u, vals in theta.items()}

    def _rows(self, X):
        return [[enc_num(v, self.mode) for v in row] for row in X]

    def eval(self, cid: str, theta: dict, X, absolute: bool = False) -> list:
        r = self.call({"cmd": "eval", "id": cid, "theta": self._theta(theta), "X": self._rows(X),
                       "abs": absolute})
        return dec_nested(r["ok"], self.mode)

    def op_eval(self, cid: str, theta: dict, X, op: str, **kw) -> list:
        q = {"cmd": "op_eval", "id": cid, "theta": self._theta(theta), "X": self._rows(X), "op": op}
        kw = dict(kw)
        if "vals" in kw:
            kw["vals"] = [enc_num(v, self.mode) for v in kw["vals"]]
        if "quad" in kw:
            kw["quad"] = self._quad(kw["quad"])
        q.update(kw)
        return dec_nested(self.call(q)["ok"], self.mode)

    def _quad(self, quad):
        return [[enc_num(p, self.mode), enc_num(w, self.mode)] for p, w in (quad or [])]

    def spec_integrate(self, cid: str, theta: dict, X, zs, quad=None) -> list:
        r = self.call({"cmd": "spec_integrate", "id": cid, "theta": self._theta(theta),
                       "X": self._rows(X), "vars": list(zs), "quad": self._quad(quad)})
        return dec_nested(r["ok"], self.mode)

    def masked_eval(self, cid: str, theta: dict, X, masks, quad=None) -> list:
        r = self.call({"cmd": "masked_eval", "id": cid, "theta": self._theta(theta),
                       "X": self._rows(X), "masks": [list(m) for m in masks], "quad": self._quad(quad)})
        return dec_nested(r["ok"], self.mode)

    def param(self, expr: dict, theta: dict):
        r = self.call({"cmd": "param", "expr": expr, "theta": self._theta(theta)})
        return r["shape"], r["symshape"], dec_nested(r["ok"], self.mode)


_drivers: dict[str, Driver] = {}


def driver(mode: str = "rat") -> Driver:
    d = _drivers.get(mode)
    if d is None or d.proc.poll() is not None:
        d = Driver(mode)
        _drivers[mode] = d
    return d


def close_all():
    for d in _drivers.values():
        d.close()
    _drivers.clear()
